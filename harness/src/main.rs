//! vmon — runtime monitors for msql-srv. See /verif/DESIGN.md.
#![allow(dead_code, unused_imports, clippy::all)]
mod core;
mod model;
mod props;
mod second;
mod shim;
mod tls;
mod transport;
mod util;
mod wire;

use crate::core::*;
use crate::util::*;
use std::time::Instant;

fn arg(args: &[String], name: &str) -> Option<String> {
    args.iter().position(|a| a == name).and_then(|i| args.get(i + 1).cloned())
}

fn profile_name() -> &'static str {
    // overflow-checks cannot be queried directly; detect it by doing the arithmetic
    let checked = std::panic::catch_unwind(|| {
        let x: u8 = std::hint::black_box(255);
        std::hint::black_box(x + 1)
    })
    .is_err();
    let _ = take_panic();
    match (checked, cfg!(debug_assertions)) {
        (true, true) => "chk",
        (false, false) => "release",
        (true, false) => "overflow-checks-only",
        (false, true) => "debug-assertions-only",
    }
}

fn main() {
    core::START.get_or_init(std::time::Instant::now);
    let args: Vec<String> = std::env::args().collect();
    install_panic_hook();
    let cmd = args.get(1).map(|s| s.as_str()).unwrap_or("");
    match cmd {
        "selfcheck" => match selfcheck() {
            Ok(()) => {
                eprintln!("selfcheck ok");
            }
            Err(e) => {
                eprintln!("selfcheck FAILED: {}", e);
                std::process::exit(2);
            }
        },
        "run" => run(&args),
        _ => {
            eprintln!("usage: vmon run --prop Cxx --tier quick|thorough --seed N --report FILE [--threads N] [--only group:idx] [--scale F] [--miri]\n       vmon selfcheck");
            std::process::exit(2);
        }
    }
}

fn selfcheck() -> Result<(), String> {
    util::selfcheck()?;
    wire::selfcheck()?;
    second::selfcheck()?;
    model::selfcheck()?;
    Ok(())
}

fn run(args: &[String]) {
    let prop = arg(args, "--prop").expect("--prop");
    let tier = arg(args, "--tier").unwrap_or_else(|| "quick".into());
    let seed: u64 = arg(args, "--seed").and_then(|s| s.parse().ok()).unwrap_or(0);
    let report_path = arg(args, "--report").expect("--report");
    let threads: usize = arg(args, "--threads").and_then(|s| s.parse().ok()).unwrap_or_else(|| std::thread::available_parallelism().map(|n| n.get()).unwrap_or(4));
    let scale: f64 = arg(args, "--scale").and_then(|s| s.parse().ok()).unwrap_or(1.0);
    let miri = args.iter().any(|a| a == "--miri");
    let only = arg(args, "--only").and_then(|s| {
        let (g, i) = s.rsplit_once(':')?;
        Some((g.to_string(), i.parse().ok()?))
    });
    let t0 = Instant::now();
    let profile = std::env::var("VMON_PROFILE").unwrap_or_else(|_| profile_name().to_string());
    let mut rep = Report::default();
    let mut sc_err = None;
    if !miri {
        if let Err(e) = selfcheck() {
            sc_err = Some(e);
        }
    } else if let Err(e) = wire::selfcheck_light() {
        sc_err = Some(e);
    }
    if let Some(e) = sc_err {
        rep.inconclusive.push(format!("harness selfcheck failed: {}", e));
    } else {
        // the thorough tier's random groups are sized for a few minutes per build profile on 16 idle cores
        // (re-measured after the transport dimensions of rounds 4-7 made a case several times dearer)
        let mult = std::env::var("VMON_THOROUGH_MULT").ok().and_then(|s| s.parse().ok()).unwrap_or(match prop.as_str() {
            "C01" => 5.0,
            "C02" => 25.0,
            "C03" => 30.0,
            "C04" => 10.0,
            "C05" => 20.0,
            "C06" => 15.0,
            "C07" => 12.0,
            "C08" => 40.0,
            "C09" => 8.0,
            "C10" => 25.0,
            "C11" => 60.0,
            "C12" => 5.0,
            "C14" => 30.0,
            "C15" => 25.0,
            "C16" => 15.0,
            "C17" => 20.0,
            "C18" => 5.0,
            "C19" => 40.0,
            "C20" => 30.0,
            _ => 1.0,
        });
        core::THOROUGH.store(tier == "thorough", std::sync::atomic::Ordering::Relaxed);
        let ctx = Ctx { seed, thorough: tier == "thorough", threads, only, scale, miri, tls_server: None, thorough_mult: mult };
        match props::run(&prop, &ctx) {
            Some(r) => rep = r,
            None => rep.inconclusive.push(format!("unknown property {}", prop)),
        }
    }
    let wall = t0.elapsed().as_secs_f64();
    // harness panics are never violations
    let mut per_sig: std::collections::BTreeMap<String, usize> = std::collections::BTreeMap::new();
    let viols: Vec<J> = rep
        .violations
        .iter()
        .filter(|v| {
            let c = per_sig.entry(v.signature.clone()).or_insert(0);
            *c += 1;
            *c <= 3
        })
        .take(600)
        .map(|v| {
            J::obj()
                .set("property", v.prop)
                .set("signature", v.signature.clone())
                .set("what", v.what.clone())
                .set("group", v.case_group.clone())
                .set("index", v.case_index)
                .set("detail", v.detail.clone())
        })
        .collect();
    let classes: Vec<J> = rep.counters.classes.iter().take(400).map(|c| J::s(c.clone())).collect();
    let j = J::obj()
        .set("property", prop.as_str())
        .set("tier", tier.as_str())
        .set("seed", seed)
        .set("profile", profile.as_str())
        .set("evaluations", rep.evaluations)
        .set("distinct_classes", rep.counters.classes.len())
        .set("classes", J::A(classes))
        .set("counters", &rep.counters.n)
        .set("samples", J::A(rep.samples.clone()))
        .set("rule", rep.rule.clone())
        .set("exhaustive", rep.exhaustive)
        .set("violations_total", rep.violations.len())
        .set("violations", J::A(viols))
        .set("inconclusive", rep.inconclusive.iter().map(|s| J::s(s.clone())).collect::<Vec<_>>())
        .set("notes", rep.notes.iter().map(|s| J::s(s.clone())).collect::<Vec<_>>())
        .set("wall_s", wall);
    std::fs::write(&report_path, j.render()).expect("write report");
    eprintln!(
        "vmon {} {} seed={} profile={}: {} evaluations, {} classes, {} violations, {} inconclusive, {:.1}s",
        prop,
        tier,
        seed,
        profile,
        rep.evaluations,
        rep.counters.classes.len(),
        rep.violations.len(),
        rep.inconclusive.len(),
        wall
    );
}
